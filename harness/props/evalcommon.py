"""Executing evaluation requests on the real code, in the driver's response shape."""
import common
from common import circ_from_json, v3s, v3p, err_name


def asg_to_py(asg):
    d = {k: v3p(v) for k, v in asg}
    # every third assignment (chosen by its text) is handed over as a deep copy or after a pickle round trip: its
    # Undefined values are then equal to, but not the same object as, the module's `Undefined`
    import zlib
    k = zlib.crc32(repr(sorted(map(tuple, asg))).encode()) % 6
    if k == 0:
        import copy
        return copy.deepcopy(d)
    if k == 1:
        import pickle
        return pickle.loads(pickle.dumps(d))
    return d


def asg_out(d):
    return [[k, v3s(v)] for k, v in d.items()]


def json_is_cyclic(j):
    """own cycle detection on the JSON netlist (iterative three-colour DFS over operands)"""
    ops = {g[0]: g[2] for g in j['gates']}
    colour = {}
    for root in ops:
        if root in colour:
            continue
        stack = [(root, iter(ops[root]))]
        colour[root] = 1
        while stack:
            node, it = stack[-1]
            for o in it:
                if o not in ops:
                    continue
                if colour.get(o) == 1:
                    return True
                if o not in colour:
                    colour[o] = 1
                    stack.append((o, iter(ops[o])))
                    break
            else:
                colour[node] = 2
                stack.pop()
    return False


EVALUATING_OPS = {'eval_full', 'eval_lazy', 'eval_outputs', 'evaluate', 'evaluate_at', 'truth_table', 'gates_tt'}


def py_exec(req):
    """Run one request on cirbo itself; same JSON shape as the model driver's answer."""
    op = req['op']
    try:
        c = circ_from_json(req['c'])
        if op in ('eval_full', 'eval_lazy', 'eval_outputs'):
            # the caller's assignment must come back untouched: a caller that reuses its dict for
            # the next call (cirbo's own minimisation code does) would otherwise pin internal gates
            # to stale values — unsound, non-monotone and Undefined-under-total results
            mine = asg_to_py(req['asg'])
            before = dict(mine)
            if op == 'eval_full':
                res = c.evaluate_full_circuit(mine)
            elif op == 'eval_lazy':
                kw = {}
                if req.get('outs') is not None:
                    kw['outputs'] = list(req['outs'])
                res = c.evaluate_circuit(mine, **kw)
            else:
                res = c.evaluate_circuit_outputs(mine)
            out = asg_out(res)
            if mine != before or list(mine) != list(before):
                return {'err': 'CallerAssignmentModified'}
            return {'ok': out}
        if op == 'evaluate':
            return {'ok': [v3s(x) for x in c.evaluate([v3p(v) for v in req['vals']])]}
        if op == 'evaluate_at':
            return {'ok': v3s(c.evaluate_at([v3p(v) for v in req['vals']], req['idx']))}
        if op == 'truth_table':
            return {'ok': [''.join(v3s(x) for x in row) for row in c.get_truth_table()]}
        if op == 'gates_tt':
            return {'ok': [[k, ''.join(v3s(x) for x in v)] for k, v in c.get_gates_truth_table().items()]}
        if op == 'top_sort':
            return {'ok': [g.label for g in c.top_sort(inverse=req['inverse'])]}
        if op == 'traverse':
            return {'ok': py_traverse(c, req)}
        if op == 'cycle_check':
            from cirbo.core.circuit.validation import check_circuit_has_no_cycles
            from cirbo.core.circuit.exceptions import CircuitValidationError
            try:
                if req.get('start') is not None:
                    check_circuit_has_no_cycles(c, start_gates=list(req['start']))
                else:
                    check_circuit_has_no_cycles(c)
                return {'ok': False}
            except CircuitValidationError:
                return {'ok': True}
        raise ValueError('py_exec: unknown op ' + op)
    except RecursionError:
        return {'err': 'Py:RecursionError'}
    except Exception as e:  # noqa: BLE001
        return {'err': err_name(e)}


def py_traverse(c, req):
    """run dfs/bfs with logging hooks; the log has the model's event shape"""
    log = []
    labels = list(c.gates)

    def peek(st):
        # a hook may look up the state of any gate (e.g. "are all operands visited?"); looking must not change anything
        if req.get('peek'):
            for l in labels:
                st[l]
    kw = dict(inverse=req['inverse'], topsort_unvisited=req['topsort_unvisited'],
              on_enter_hook=lambda g, st: (peek(st), log.append(['enter', g.label])),
              on_discover_hook=lambda g, st: log.append(['discover', g.label, st[g.label].name]),
              unvisited_hook=lambda g, st: log.append(['unvisited', g.label]),
              on_traversal_end_hook=lambda st: log.append(['end']))
    start = req.get('start')
    if req['bfs']:
        it = c.bfs(start, **kw)
    else:
        kw['on_exit_hook'] = lambda g, st: log.append(['exit', g.label])
        it = c.dfs(start, **kw)
    for g in it:
        log.append(['yield', g.label])
    return log


DICT_OPS = {'eval_full', 'eval_lazy', 'eval_outputs', 'gates_tt'}


def canon(resp, op=None):
    """canonical projection: dict-valued answers as sorted mappings (storage order ignored);
    order-valued answers (top_sort, traversal logs, truth tables) are compared as they are"""
    if op in DICT_OPS and 'ok' in resp and isinstance(resp['ok'], list) and resp['ok'] and isinstance(resp['ok'][0], list):
        return {'ok': sorted(map(tuple, resp['ok']))}
    return resp


def compare_stream(ctx, stream, reqs):
    """code vs model on the same requests; canonical mismatch => broken correspondence,
    strict-only mismatch => order_drift statistic."""
    code = [py_exec(r) for r in reqs]
    model = ctx.driver.ask_many(reqs)
    for r, a, b in zip(reqs, code, model):
        if 'bad' in b:
            raise RuntimeError('driver rejected request: %r -> %r' % (r, b))
        if a == b:
            ctx.count('agree:' + stream)
        elif canon(a, r['op']) == canon(b, r['op']):
            ctx.count('order_drift:' + stream)
        else:
            ctx.mismatch(stream, r, a, b)
        if 'err' in a:
            ctx.count('err:' + a['err'])
    return code, model
