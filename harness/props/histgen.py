"""Weighted grammar of public mutator calls (valid with probability ~0.85)."""
import gen
from common import realize

TYPES2 = ['AND', 'OR', 'XOR', 'NAND', 'NOR', 'NXOR', 'GT', 'LT', 'GEQ', 'LEQ', 'LIFF', 'RIFF', 'LNOT', 'RNOT']


class Shadow:
    """light-weight shadow of the circuit state used only to pick mostly-valid arguments"""

    def __init__(self, j):
        self.gates = {g[0]: (g[1], list(g[2])) for g in j['gates']}
        self.inputs = list(j['inputs'])
        self.outputs = list(j['outputs'])
        self.blocks = [b[0] for b in j.get('blocks', [])]
        self.n = 0

    def fresh(self, rng):
        self.n += 1
        return rng.choice(['n', 'input_', 'h']) + str(self.n)

    def users(self, l):
        return [k for k, (t, ops) in self.gates.items() if l in ops]


def small_other(rng, tag):
    j, _ = gen.gen_circuit(rng, max_inputs=3, max_gates=6, min_inputs=1, n_outputs=rng.choice([1, 2]),
                           p_output_is_input=0.1, blocks=(rng.random() < 0.3))
    # distinct label space with occasional clashes
    ren = {g[0]: (g[0] if rng.random() < 0.1 else tag + g[0]) for g in j['gates']}
    j['gates'] = [[ren[l], t, [ren[o] for o in ops]] for l, t, ops in j['gates']]
    j['inputs'] = [ren[x] for x in j['inputs']]
    j['outputs'] = [ren[x] for x in j['outputs']]
    j['blocks'] = [[tag + b[0], [ren[x] for x in b[1]], [ren[x] for x in b[2]], [ren[x] for x in b[3]]] for b in j['blocks']]
    return realize(j)


def gen_step(rng, sh, ops_enabled):
    """returns one step (JSON list); updates the shadow optimistically"""
    labels = list(sh.gates)
    op = rng.choice(ops_enabled)
    invalid = rng.random() < 0.04
    pick = lambda: (rng.choice(labels) if labels and not invalid else 'zz_missing')
    if op == 'add_gate':
        l = sh.fresh(rng) if not invalid else (rng.choice(labels) if labels else 'x')
        kind = rng.choice(['in', 'un', 'bin', 'bin', 'nary', 'const'])
        if kind == 'in' or not labels:
            st = ['add_gate', l, 'INPUT', []]
        elif kind == 'un':
            st = ['add_gate', l, rng.choice(['NOT', 'IFF']), [pick()]]
        elif kind == 'bin':
            a = pick()
            st = ['add_gate', l, rng.choice(TYPES2), [a, a if rng.random() < 0.25 else pick()]]
        elif kind == 'nary':
            st = ['add_gate', l, rng.choice(['AND', 'OR', 'XOR', 'NOR']), [pick() for _ in range(rng.randint(2, 4))]]
        else:
            st = ['add_gate', l, rng.choice(['ALWAYS_TRUE', 'ALWAYS_FALSE']), [pick() for _ in range(rng.choice([0, 0, 2]))]]
        if not invalid:
            sh.gates[l] = (st[2], st[3])
            if st[2] == 'INPUT':
                sh.inputs.append(l)
        return st
    if op == 'remove_gate':
        cands = [l for l in labels if not sh.users(l)] if not invalid else labels
        if not cands:
            return ['mark_as_output', pick()]
        l = rng.choice(cands)
        if not sh.users(l):
            sh.gates.pop(l, None)
            sh.inputs = [x for x in sh.inputs if x != l]
            sh.outputs = [x for x in sh.outputs if x != l]
        return ['remove_gate', l]
    if op == 'rename_gate':
        old = pick()
        new = sh.fresh(rng) if not invalid else (rng.choice(labels) if labels else 'q')
        if old in sh.gates and new not in sh.gates:
            t, ops = sh.gates.pop(old)
            sh.gates[new] = (t, ops)
            for k, (tt, oo) in sh.gates.items():
                sh.gates[k] = (tt, [new if o == old else o for o in oo])
            sh.inputs = [new if x == old else x for x in sh.inputs]
            sh.outputs = [new if x == old else x for x in sh.outputs]
        return ['rename_gate', old, new]
    if op == 'mark_as_output':
        l = pick()
        if l in sh.gates:
            sh.outputs.append(l)
        return ['mark_as_output', l]
    if op == 'set_outputs':
        outs = [pick() for _ in range(rng.randint(0, 3))]
        if all(o in sh.gates for o in outs):
            sh.outputs = outs
        return ['set_outputs', outs]
    if op == 'set_inputs':
        ins = list(sh.inputs)
        rng.shuffle(ins)
        if invalid and ins:
            ins = ins[:-1]
        else:
            sh.inputs = ins
        return ['set_inputs', ins]
    if op == 'add_inputs':
        if invalid or rng.random() < 0.15:
            # a new label listed twice (or a label that exists already): refused, nothing added
            l = sh.fresh(rng)
            return ['add_inputs', rng.choice([[l, l], [l, sh.fresh(rng), l], [rng.choice(labels)] if labels else [l, l]])]
        ls = [sh.fresh(rng) for _ in range(rng.randint(1, 2))]
        for l in ls:
            sh.gates[l] = ('INPUT', [])
            sh.inputs.append(l)
        return ['add_inputs', ls]
    if op == 'order_inputs':
        k = rng.randint(0, len(sh.inputs))
        ins = rng.sample(sh.inputs, k) if sh.inputs else []
        if invalid:
            # a label that does not exist, or an existing one listed once too often
            if ins and rng.random() < 0.5:
                ins = ins + [rng.choice(ins)]
            else:
                ins = ins + ['zz_missing']
        else:
            sh.inputs = ins + [x for x in sh.inputs if x not in ins]
        return ['order_inputs', ins]
    if op == 'order_outputs':
        outs = []
        pool = list(sh.outputs)
        for _ in range(rng.randint(0, len(pool))):
            outs.append(pool.pop(rng.randrange(len(pool))))
        if invalid:
            # a label that is no output, or an output listed more often than it occurs
            if sh.outputs and rng.random() < 0.5:
                x = rng.choice(sh.outputs)
                outs = [o for o in outs if o != x] + [x] * (list(sh.outputs).count(x) + 1)
            else:
                outs = outs + ['zz_missing']
        else:
            sh.outputs = outs + pool
        return ['order_outputs', outs]
    if op == 'replace_inputs':
        cands = list(sh.inputs)
        rng.shuffle(cands)
        k = rng.randint(0, min(2, len(cands)))
        t, f = cands[:k], cands[k:k + rng.randint(0, 1)]
        if invalid and labels:
            t = t + [rng.choice(labels)]
        else:
            for l in t:
                sh.gates[l] = ('ALWAYS_TRUE', [])
            for l in f:
                sh.gates[l] = ('ALWAYS_FALSE', [])
            sh.inputs = [x for x in sh.inputs if x not in t + f]
        return ['replace_inputs', t, f]
    if op == 'make_block':
        sh.n += 1
        name = ('B%d' % sh.n) if not invalid else (rng.choice(sh.blocks) if sh.blocks else 'B0')
        members = [pick() for _ in range(rng.randint(1, 3))]
        ins = None if rng.random() < 0.5 else [pick() for _ in range(rng.randint(0, 2))]
        if name not in sh.blocks:
            sh.blocks.append(name)
        outs = [pick() for _ in range(rng.randint(0, 2))]
        readers = [u for g in members for u in sh.users(g) if u not in members]
        if readers and rng.random() < 0.4:
            outs = [rng.choice(readers)]          # an output that reads a member without being one
        return ['make_block', name, members, outs, ins]
    if op == 'delete_block':
        if not sh.blocks and not invalid:
            return ['mark_as_output', pick()]
        name = rng.choice(sh.blocks) if sh.blocks and not invalid else 'B9'
        if name in sh.blocks:
            sh.blocks.remove(name)
        return ['delete_block', name]
    if op == 'remove_block':
        # removes the block's gates as well; refused when an outside gate (a listed output that is not a member counts
        # as outside) still reads a member.  The shadow is not updated: later steps may then name removed gates, which
        # both sides must refuse alike.
        if not sh.blocks and not invalid:
            return ['mark_as_output', pick()]
        return ['remove_block', rng.choice(sh.blocks) if sh.blocks and not invalid else 'B9']
    if op == 'into_bench':
        return ['into_bench']
    if op == 'copy':
        return ['copy']
    if op == 'connect':
        other = small_other(rng, rng.choice(['o', 'p', 'q']))
        right = rng.random() < 0.4
        k = rng.randint(0, 2)
        if right:
            thisc = rng.sample(sh.inputs, min(k, len(sh.inputs)))
            olabels = [g[0] for g in other['gates']]
            otherc = [rng.choice(olabels) for _ in thisc]
        else:
            otherc = rng.sample(other['inputs'], min(k, len(other['inputs'])))
            thisc = [pick() for _ in otherc]
        name = rng.choice(['', '', 'blkA', 'blkB', 'blkC'])
        return ['connect', other, thisc, otherc, right, name, rng.random() < 0.7]
    if op == 'replace_subcircuit':
        from props.slicegen import make_slice, sub_from_slice
        j = {'gates': [[l, t, list(o)] for l, (t, o) in sh.gates.items()], 'inputs': list(sh.inputs),
             'outputs': [o for o in sh.outputs if o in sh.gates], 'blocks': []}
        try:
            sl = make_slice(rng, j)
        except Exception:
            sl = None
        if sl is None:
            return ['mark_as_output', pick()]
        variant = rng.choice(['identical', 'renamed', 'renamed', 'reexpressed', 'entangled', 'entangled', 'incomplete', 'clash'])
        try:
            sub, im, om = sub_from_slice(j, sl, variant, rng)
        except Exception:
            return ['mark_as_output', pick()]
        if variant != 'incomplete':
            ren = dict(map(tuple, im + om))
            m = lambda x: ren.get(x, x)
            dropped = set(sl['interior']) - set(sl['outs'])
            new = {}
            for l, (t, o) in sh.gates.items():
                if l in dropped or l in sl['outs']:
                    continue
                new[m(l)] = (t, [m(x) for x in o])
            for g in sub['gates']:
                if g[1] != 'INPUT':
                    new[g[0]] = (g[1], list(g[2]))
            sh.gates = new
            sh.inputs = [m(x) for x in sh.inputs]
            sh.outputs = [m(x) for x in sh.outputs]
        return ['replace_subcircuit', sub, im, om]
    raise ValueError(op)


PRIMITIVE_OPS = ['add_gate'] * 5 + ['remove_gate', 'rename_gate', 'rename_gate', 'mark_as_output', 'set_outputs',
                                    'set_inputs', 'add_inputs', 'order_inputs', 'order_outputs', 'replace_inputs',
                                    'make_block', 'make_block', 'delete_block', 'remove_block', 'copy']
ALL_OPS = PRIMITIVE_OPS + ['into_bench', 'connect', 'connect', 'replace_subcircuit']


def gen_history(rng, n_steps, ops=ALL_OPS, start=None):
    if start is None:
        j, _ = gen.gen_circuit(rng, max_inputs=3, max_gates=8, blocks=(rng.random() < 0.3))
        start = realize(j)
    sh = Shadow(start)
    steps = [gen_step(rng, sh, ops) for _ in range(n_steps)]
    return start, steps


def directed_reconvert(rng, start):
    """a gate that `into_bench` rewrites with a helper gate; the conversion; the label is freed (renamed or removed) and
    a new gate of the same kind takes it — reading the renamed gate, so that a helper shared with the first conversion
    would close a cycle or feed the wrong signal; a few dead gates come and go in between (the size of the circuit at
    the second conversion runs through the values around its size at the first); the second conversion; a copy"""
    labels = [g[0] for g in start['gates']]
    if len(labels) < 2 or any(l.startswith('rc_') for l in labels):
        return None
    kind = rng.choice(['GT', 'LT', 'GEQ', 'LEQ', 'GT', 'LT', 'ALWAYS_TRUE', 'ALWAYS_FALSE'])
    const = kind.startswith('ALWAYS')
    if const and not start['inputs']:
        return None
    a, b, c = rng.choice(labels), rng.choice(labels), rng.choice(labels)
    g = rng.choice(['rc_g', 'rc_g1', 'rc_1'])
    steps = [['add_gate', 'rc_d%d' % i, 'NOT', [a]] for i in range(3)]
    steps += [['add_gate', g, kind, [] if const else [a, b]], ['mark_as_output', g], ['into_bench']]
    freed = rng.choice(['rename', 'rename', 'remove'])
    if freed == 'rename':
        steps.append(['rename_gate', g, 'rc_out'])
    else:
        steps += [['set_outputs', [o for o in start['outputs']]], ['remove_gate', g]]
    for i in range(rng.randint(0, 3)):
        steps.append(['remove_gate', 'rc_d%d' % i])
    second = [] if const else ([c, 'rc_out'] if freed == 'rename' and rng.random() < 0.7 else [c, a])
    if rng.random() < 0.5:
        second = second[::-1]
    steps += [['add_gate', g, kind, second], ['mark_as_output', g], ['into_bench'], ['copy']]
    return start, steps
