"""Seeded generators of circuits (as JSON, storage order explicit) shared by all properties."""
import itertools

SYM_NARY = ['AND', 'OR', 'XOR', 'NAND', 'NOR', 'NXOR']
CMP = ['GT', 'LT', 'GEQ', 'LEQ']
LR = ['LIFF', 'RIFF', 'LNOT', 'RNOT']
UNARY = ['NOT', 'IFF']
CONST = ['ALWAYS_TRUE', 'ALWAYS_FALSE']
ALL_TYPES = ['INPUT'] + CONST + SYM_NARY + CMP + LR + UNARY

LABEL_POOLS = {
    'plain': lambda i: f'g{i}',
    'keyword': lambda i: ['input_a', 'OUTPUT1', 'vdd2', 'buff', 'Input', 'outputx', 'INPUTS', 'not1',
                          'and', 'x y'.replace(' ', '_')][i % 10] + (str(i) if i >= 10 else ''),
    'digits': lambda i: f'{i}',
    # the labels exact synthesis gives its own gates and inputs ('0', '1', … and 's3', 's4', …), and temporary-looking ones
    'synth': lambda i: (['0', '1', '2', 's3', 's4', 's5', 'tmp_0', 'tmp_1', 's0', '3'][i] if i < 10 else f's{i}'),
    'punct': lambda i: ['a.b', 'q[0]', 'n-1', 'z@z', 'u1.clk', 'x[3]', 'p:q', 'r/s', 'k+1', 'w$'][i % 10] + ('' if i < 10 else f'.{i}'),
    'weird': lambda i: ['a.b', 'q[0]', 'n-1', 'é', 'z@z', 'A', 'a', '_', '__x', 'Ω1'][i % 10] + ('' if i < 10 else f'_{i}'),
}


def gen_circuit(rng, *, max_inputs=5, max_gates=14, types=None, max_arity=5, label_pool='plain',
                shuffle_storage=True, allow_dead=True, n_outputs=None, p_repeat_operand=0.2,
                p_output_is_input=0.15, p_repeat_output=0.15, min_inputs=0, blocks=False,
                const_ops=True, p_twin=0.0, min_gates=None):
    """A well-formed random circuit: dict(gates, inputs, outputs, users, blocks).
    Returns (json, info) where info counts the feature knobs that fired."""
    types = types or (SYM_NARY + CMP + LR + UNARY + CONST)
    ni = rng.randint(min_inputs, max_inputs)
    ng = rng.randint(0 if ni > 0 else 1, max_gates) if min_gates is None else rng.randint(min_gates, max(min_gates, max_gates))
    mk = LABEL_POOLS[label_pool]
    labels = [mk(i) for i in range(ni + ng)]
    rng.shuffle(labels)
    inputs = labels[:ni]
    gates = [[l, 'INPUT', []] for l in inputs]
    info = {'repeat_operand': 0, 'nary3': 0, 'const_with_ops': 0, 'cmp_same': 0, 'twin': 0}
    avail = list(inputs)
    for l in labels[ni:]:
        if p_twin and rng.random() < p_twin:
            # a twin: the type of an earlier gate on the same operands in another order
            olds = [g for g in gates if len(g[2]) >= 2 and g[1] in types]
            if olds:
                g0 = rng.choice(olds)
                ops = list(g0[2])
                if rng.random() < 0.7:
                    ops.reverse()
                else:
                    rng.shuffle(ops)
                gates.append([l, g0[1], ops])
                avail.append(l)
                info['twin'] += 1
                continue
        cands = list(types)
        if not avail:
            cands = [t for t in cands if t in CONST]
            if not cands:
                cands = ['ALWAYS_TRUE']
        t = rng.choice(cands)
        if t in CONST:
            k = rng.choice([0, 0, 0, 2, 1]) if (avail and const_ops) else 0
            if k:
                info['const_with_ops'] += 1
        elif t in UNARY:
            k = 1
        elif t in SYM_NARY:
            k = rng.choice([2, 2, 2, 3, 3, 4, max_arity])
            if k >= 3:
                info['nary3'] += 1
        else:
            k = 2
        ops = []
        for _ in range(k):
            if ops and rng.random() < p_repeat_operand:
                ops.append(rng.choice(ops))
                info['repeat_operand'] += 1
                if t in CMP:
                    info['cmp_same'] += 1
            else:
                # bias to recent gates for depth
                if rng.random() < 0.5 and len(avail) > 3:
                    ops.append(rng.choice(avail[-3:]))
                else:
                    ops.append(rng.choice(avail))
        gates.append([l, t, ops])
        avail.append(l)
    all_labels = [g[0] for g in gates]
    no = n_outputs if n_outputs is not None else rng.choice([0, 1, 1, 2, 2, 3, 4])
    outputs = []
    non_in = [g[0] for g in gates if g[1] != 'INPUT']
    for _ in range(no):
        if not all_labels:
            break
        if outputs and rng.random() < p_repeat_output:
            outputs.append(rng.choice(outputs))
        elif inputs and (rng.random() < p_output_is_input or not non_in):
            outputs.append(rng.choice(inputs))
        elif non_in:
            # prefer late gates so that most logic is live
            outputs.append(rng.choice(non_in[-4:]) if rng.random() < 0.7 else rng.choice(non_in))
    input_order = list(inputs)
    if shuffle_storage:
        rng.shuffle(gates)   # storage order != topological order
        if rng.random() < 0.5:
            rng.shuffle(input_order)
    j = {'gates': gates, 'inputs': input_order, 'outputs': outputs}
    users = {}
    for l, t, ops in gates:
        for o in ops:
            users.setdefault(o, []).append(l)
    j['users'] = [[k, v] for k, v in users.items()]
    j['blocks'] = []
    if blocks and non_in and rng.random() < 0.7:
        for bi in range(rng.randint(1, 2)):
            members = rng.sample(non_in, rng.randint(1, min(4, len(non_in))))
            mset = set(members)
            bins = []
            for l, t, ops in gates:
                if l in mset:
                    bins += [o for o in ops if o not in mset]
            j['blocks'].append([f'blk{bi}', bins, members, [members[-1]]])
    info['n_inputs'] = ni
    info['n_gates'] = len(gates)
    info['n_outputs'] = len(outputs)
    return j, info


def topo_order(j):
    """labels in a dependency order (operands first), independent of storage order"""
    ops = {g[0]: g[2] for g in j['gates']}
    done, out = set(), []

    def visit(l):
        stack = [(l, iter(ops[l]))]
        if l in done:
            return
        onpath = {l}
        while stack:
            node, it = stack[-1]
            adv = False
            for o in it:
                if o not in done and o not in onpath:
                    stack.append((o, iter(ops[o])))
                    onpath.add(o)
                    adv = True
                    break
            if not adv:
                stack.pop()
                onpath.discard(node)
                if node not in done:
                    done.add(node)
                    out.append(node)
    for g in j['gates']:
        visit(g[0])
    return out


def all_assignments(n):
    return list(itertools.product((False, True), repeat=n))


def canon_key(j):
    """canonical text of a circuit JSON for distinctness counting"""
    import json
    return json.dumps([j['gates'], j['inputs'], j['outputs']], sort_keys=True)
