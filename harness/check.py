#!/venv/bin/python
"""check <ID> [--tier quick|thorough] [--replay FILE]

Protocol (DESIGN.md section 4):
 1. regenerate tables from /repo, build the property's Lean target + the model driver, audit
 2. correspondence: real code vs model on generated streams (canonical comparison)
 3. failing-input search: real code's results through the verified checkers
 4. verdict: a failing input => VIOLATION with that replay (unless it is a listed known finding);
    a broken proof/correspondence without failing input => VIOLATION ... no-failing-input-found
 5. evidence/<ID>.json
exit 0 = held, 1 = violation, 2 = infrastructure failure.
"""
import argparse
import importlib
import json
import os
import re
import sys
import traceback

HERE = os.path.dirname(os.path.abspath(__file__))
sys.path.insert(0, HERE)
import common  # noqa: E402


class Ctx:
    def __init__(self, pid, tier, seed):
        self.pid = pid
        self.tier = tier
        self.seed = seed
        self.driver = None
        self.stats = {}          # histogram counters
        self.evaluations = 0
        self.distinct = set()
        self.samples = []
        self.mismatches = []     # correspondence: dicts(stream, request, code, model)
        self.violations = []     # search: dicts(key, what, input, observed, expected)
        self.notes = []

    def rng(self, stream):
        return common.Rng(self.seed, f'{self.pid}/{stream}')

    def count(self, key, n=1):
        self.stats[key] = self.stats.get(key, 0) + n

    def case(self, key_text, nontrivial=True):
        self.evaluations += 1
        if nontrivial:
            self.distinct.add(hash(key_text))

    def sample(self, s, limit=4):
        if len(self.samples) < limit:
            self.samples.append(s)

    def mismatch(self, stream, request, code, model):
        if len(self.mismatches) < 50:
            self.mismatches.append({'stream': stream, 'request': request, 'code': code, 'model': model})
        self.count('mismatch:' + stream)

    def violation(self, key, what, **payload):
        if len(self.violations) < 200:
            self.violations.append(dict(key=key, what=what, **payload))
        self.count('violation:' + key)

    def scale(self, quick, thorough):
        return thorough if self.tier == 'thorough' else quick


def parse_obligations(pid):
    path = os.path.join(common.LEAN_DIR, 'Cirbo', 'Props', pid + '.lean')
    with open(path) as f:
        src = f.read()
    obs = []
    for m in re.finditer(r'^-- OBLIGATION: (\S+)', src, re.M):
        obs.append(m.group(1))
    partial = re.findall(r'^-- PARTIAL: (.*)$', src, re.M)
    return obs, partial


def parse_witnesses(pid):
    """`-- THOROUGH-WITNESS: <module> <theorem>` lines: kernel-evaluated counterexamples of clauses that are
    listed as open known findings; too slow for every build, so only built and audited in the thorough tier"""
    path = os.path.join(common.LEAN_DIR, 'Cirbo', 'Props', pid + '.lean')
    with open(path) as f:
        src = f.read()
    return re.findall(r'^-- THOROUGH-WITNESS: (\S+) (\S+)', src, re.M)


def check_witness(module, theorem):
    rc, out = common.lake_build([module])
    if rc != 0:
        return False, out[-1500:]
    tmp = os.path.join(common.LEAN_DIR, '.witness_axioms.lean')
    with open(tmp, 'w') as f:
        f.write(f'import {module}\n#print axioms {theorem}\n')
    try:
        rc2, out2 = common.run(['lake', 'env', 'lean', tmp], cwd=common.LEAN_DIR)
    finally:
        os.remove(tmp)
    m = re.search(r"depends on axioms: \[(.*?)\]", out2, re.S)
    axs = set(a.strip() for a in m.group(1).split(',')) if m else (set() if 'does not depend on any axioms' in out2 else {'?'})
    return rc2 == 0 and axs <= common.ALLOWED_AXIOMS, out2[-800:]


def first_errors(out, limit=6):
    errs = [l for l in out.splitlines() if 'error' in l.lower()]
    return errs[:limit]


def main():
    ap = argparse.ArgumentParser()
    ap.add_argument('pid')
    ap.add_argument('--tier', default=None)
    ap.add_argument('--replay', default=None)
    args = ap.parse_args()
    pid = args.pid
    tier = args.tier or common.tier_from_env()
    seed = common.seed_from_env()
    sw = common.Stopwatch()
    os.environ.setdefault('PYTHONHASHSEED', str(seed % 4294967295))
    common.setup_cirbo()

    mod = importlib.import_module('props.' + pid.lower())
    ctx = Ctx(pid, tier, seed)

    # a check never hangs: a changed tree can make a library call loop (e.g. evaluation of a cyclic result);
    # past the limit the run is abandoned with exit 2 (infrastructure outcome, neither "held" nor "violated")
    import signal
    limit = int(os.environ.get('VERIF_TIME_LIMIT', '2400' if tier == 'quick' else '28000'))

    def _timeout(signum, frame):
        print(f'INFRA: time limit of {limit}s exceeded (tier {tier}); no verdict')
        sys.stdout.flush()
        os._exit(2)
    signal.signal(signal.SIGALRM, _timeout)
    signal.alarm(limit)

    # ---- 1. regenerate + build + audit
    rc, out = common.regenerate_tables()
    if rc != 0:
        print(out)
        print('INFRA: table extraction failed')
        return 2
    tables_changed = out.strip()
    rc_drv, out_drv = common.lake_build(['cirbo_model'])
    if rc_drv != 0:
        print(out_drv[-3000:])
        print('INFRA: model driver does not build')
        return 2
    target = 'Cirbo.Props.' + pid
    rc_p, out_p = common.lake_build([target])
    proof_ok = rc_p == 0
    obligations, partial = parse_obligations(pid)
    axioms = {}
    audit_hits = common.audit_sources()
    broken = []           # names of theorems / correspondences that no longer check
    if proof_ok:
        ok, axioms, raw = common.props_axioms(pid)
        if not ok:
            proof_ok = False
            out_p = raw
    rechecked = None
    if proof_ok and tier == 'thorough':
        ok_lc, n_lc, out_lc = common.leanchecker(pid)
        rechecked = n_lc if ok_lc else 0
        if not ok_lc:
            proof_ok = False
            out_p = 'leanchecker: ' + out_lc
    witnesses = {}
    if tier == 'thorough':
        for module, theorem in parse_witnesses(pid):
            okw, outw = check_witness(module, theorem)
            witnesses[theorem] = 'kernel-checked' if okw else 'STALE: ' + outw[-300:]
            if not okw:
                # a counterexample of a listed finding that no longer checks is not a violation of the property
                print(f'WITNESS-STALE: {theorem} no longer checks (the listed finding may be out of date)')
    if not proof_ok:
        broken.append({'kind': 'proof', 'target': target, 'errors': first_errors(out_p)})
    discharged = []
    for ob in obligations:
        ax = axioms.get(ob) if proof_ok else None
        if ax is None:
            ax = axioms.get('Cirbo.' + ob) if proof_ok else None
        if ax is not None and set(ax) <= common.ALLOWED_AXIOMS:
            discharged.append(ob)
        elif proof_ok:
            broken.append({'kind': 'axioms', 'theorem': ob, 'axioms': ax})
    if audit_hits:
        broken.append({'kind': 'audit', 'hits': audit_hits})

    # ---- 2./3. correspondence and search against the real code
    try:
        ctx.driver = common.Driver()
        if args.replay:
            with open(os.path.join(common.VERIF, args.replay) if not os.path.isabs(args.replay)
                      else args.replay) as f:
                rp = json.load(f)
            mod.replay(ctx, rp)
        else:
            if hasattr(mod, 'table_search') and not proof_ok:
                mod.table_search(ctx)
            mod.correspondence(ctx)
            mod.search(ctx)
    except Exception:
        traceback.print_exc()
        print('INFRA: harness failure')
        return 2
    finally:
        if ctx.driver:
            ctx.driver.close()

    if ctx.mismatches:
        broken.append({'kind': 'correspondence', 'first': ctx.mismatches[0],
                       'count': len(ctx.mismatches)})

    # ---- 4. verdict
    known = [k for k in common.load_known_findings() if k.get('property') == pid]
    open_keys = {k['key']: k for k in known if k.get('status') == 'open'}
    new_violations = []
    known_hit = {}
    for v in ctx.violations:
        if v['key'] in open_keys:
            known_hit.setdefault(v['key'], v)
        else:
            new_violations.append(v)
    for k, v in known_hit.items():
        print(f"KNOWN-FINDING: property={pid} {open_keys[k]['what']}")
    exit_code = 0
    if new_violations:
        v = new_violations[0]
        path = common.write_replay(pid, {'property': pid, 'seed': seed, 'tier': tier, 'kind': 'failing-input',
                                         'violation': v, 'more': new_violations[1:10], 'broken': broken})
        print(f"VIOLATION property={pid} replay={path}")
        print('  ' + v['what'])
        exit_code = 1
    elif broken and not args.replay:
        # every broken item explained by known findings? (a known defect may break correspondence
        # only through inputs that the search also flags; those streams are excluded by the modules)
        path = common.write_replay(pid, {'property': pid, 'seed': seed, 'tier': tier, 'kind': 'no-failing-input',
                                         'broken': broken, 'mismatches': ctx.mismatches[:10]})
        print(f"VIOLATION property={pid} replay={path} no-failing-input-found")
        for b in broken[:3]:
            print('  broken:', json.dumps(b, default=str)[:400])
        exit_code = 1

    # ---- 5. evidence
    n_obl = max(len(obligations), 1)
    coverage = {
        'obligations': n_obl,
        'discharged': len(discharged) if obligations else 0,
        'checker_cmd': f'cd /verif/lean && lake build {target} && lake env lean Cirbo/Props/{pid}.lean  '
                       f'(kernel re-check of every theorem + #print axioms); thorough: lake env leanchecker {target}',
        'trusted_base': [
            'Lean 4.33 kernel (lake build; leanchecker in the thorough tier)',
            'axioms allowed: propext, Classical.choice, Quot.sound (checked via #print axioms on every obligation)',
            'harness/extract_tables.py (translator for Cirbo/Generated/*) and CPython running /repo',
            'hand-written Cirbo/Model/* tied to /repo only by the correspondence run below (tested, not proved)',
            'Lean compiler/runtime for the compiled driver cirbo_model (correspondence and search only)',
        ] + list(getattr(mod, 'TRUSTED', [])),
        'leanchecker_modules_rechecked': rechecked,
        'counterexample_witnesses': witnesses,
        'theorems': obligations,
        'theorems_discharged': discharged,
        'axioms_seen': sorted({a for v in axioms.values() for a in v}),
        'partial_clauses': partial,
        'tables_regenerated': tables_changed,
        'evaluations': ctx.evaluations,
        'distinct_nontrivial': len(ctx.distinct),
        'rule': getattr(mod, 'RULE', ''),
        'samples': ctx.samples or ['(none)'],
        'histogram': dict(sorted(ctx.stats.items())),
        'correspondence_mismatches': len(ctx.mismatches),
        'broken': broken,
        'known_findings_hit': sorted(known_hit),
        'notes': ctx.notes,
        'repo_state': repo_state(),
    }
    common.write_evidence(pid, tier, seed, coverage, sw.s(), len(new_violations),
                          list(getattr(mod, 'ASSUMPTIONS', [])))
    print(f'{pid}: tier={tier} seed={seed} obligations={len(obligations)} discharged={len(discharged)} '
          f'evaluations={ctx.evaluations} distinct={len(ctx.distinct)} mismatches={len(ctx.mismatches)} '
          f'violations={len(new_violations)} known={len(known_hit)} wall={sw.s():.1f}s exit={exit_code}')
    return exit_code


def repo_state():
    """Which tree was checked: commit and whether the working tree differs from it (checks always run on the working tree)."""
    import subprocess
    try:
        head = subprocess.run(['git', '-C', '/repo', 'rev-parse', '--short', 'HEAD'], capture_output=True, text=True, timeout=30).stdout.strip()
        dirty = subprocess.run(['git', '-C', '/repo', 'status', '--porcelain', '--untracked-files=no'], capture_output=True, text=True,
                               timeout=30).stdout.splitlines()
        return {'head': head, 'modified_files': [ln[3:] for ln in dirty][:20]}
    except Exception as e:  # noqa: BLE001
        return {'head': None, 'error': type(e).__name__}


if __name__ == '__main__':
    sys.exit(main())
