"""Shim for the C++ extension `mockturtle_wrapper` (not buildable here): a Python k-feasible cut
enumerator with mockturtle's interface.  The family and order of cuts handed to cirbo can be
reshaped by the harness through `CUT_HOOK` (C04 quantifies over admissible cut families)."""
import itertools

CUT_HOOK = None   # callable(dict node -> list of cuts) -> dict, set by the harness (reordering only)
CUT_FILTER = None  # callable(node, list of non-trivial cuts) -> kept sub-list; applied *during* enumeration, so that the
                   # cuts of a node are merged from the kept cuts of its fan-ins (as mockturtle's cut_limit does)


def _parse(text):
    inputs, gates = [], {}
    order = []
    for line in text.split('\n'):
        line = line.strip()
        if not line or line.startswith('#'):
            continue
        up = line.upper()
        if up.startswith('INPUT('):
            l = line[6:].strip(') ')
            inputs.append(l)
            order.append(l)
        elif up.startswith('OUTPUT('):
            continue
        else:
            name, body = line.split('=', 1)
            name = name.strip()
            lb, rb = body.find('('), body.rfind(')')
            if lb == -1:
                ops = []
            else:
                ops = [a.strip() for a in body[lb + 1:rb].split(',') if a.strip()]
            gates[name] = ops
            order.append(name)
    return inputs, gates, order


def enumerate_cuts(circuit_text, cut_size, cut_limit, fanout_size):
    inputs, gates, order = _parse(circuit_text)
    # dependency order
    done, topo = set(inputs), list(inputs)
    pending = [g for g in order if g in gates]
    while pending:
        progress = False
        for g in list(pending):
            if all(o in done for o in gates[g]):
                done.add(g)
                topo.append(g)
                pending.remove(g)
                progress = True
        if not progress:
            break
    cuts = {}
    for n in topo:
        if n in inputs:
            cuts[n] = [(n,)]
            continue
        ops = list(dict.fromkeys(gates[n]))
        found = []
        if ops and all(o in cuts for o in ops):
            for combo in itertools.product(*[cuts[o] for o in ops]):
                leaves = tuple(sorted(set(itertools.chain.from_iterable(combo))))
                if len(leaves) <= cut_size and leaves not in found:
                    found.append(leaves)
        found = found[:max(cut_limit - 1, 0)]
        if CUT_FILTER is not None:
            found = list(CUT_FILTER(n, found))
        found.append((n,))
        cuts[n] = found
    res = {n: [list(c) for c in cs] for n, cs in cuts.items()}
    if CUT_HOOK is not None:
        res = CUT_HOOK(res)
    return res
