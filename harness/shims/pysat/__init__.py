"""Shim for the absent `python-sat` package (harness only; part of the trusted base of C04-C06).
Implements exactly the API cirbo uses: formula.CNF, formula.IDPool, solvers.Solver."""
