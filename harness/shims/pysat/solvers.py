"""A sound and complete SAT oracle for the harness: iterative DPLL with unit propagation for
small instances, `z3 -dimacs` for larger ones (both answers carry a model that is re-checked)."""
import os
import subprocess
import tempfile


class SolverNames:
    pass


def _check(clauses, model):
    s = set(model)
    return all(any(l in s for l in c) for c in clauses)


def _dpll(clauses, nv):
    clauses = [list(dict.fromkeys(c)) for c in clauses]
    if any(len(c) == 0 for c in clauses):
        return None
    assign = {}
    trail = []          # (var, decision?)
    occ = {}
    for i, c in enumerate(clauses):
        for l in c:
            occ.setdefault(abs(l), []).append(i)

    def val(l):
        v = assign.get(abs(l))
        if v is None:
            return None
        return v if l > 0 else not v

    def propagate():
        changed = True
        while changed:
            changed = False
            for c in clauses:
                unassigned, sat = None, False
                n_un = 0
                for l in c:
                    v = val(l)
                    if v is True:
                        sat = True
                        break
                    if v is None:
                        n_un += 1
                        unassigned = l
                if sat:
                    continue
                if n_un == 0:
                    return False
                if n_un == 1:
                    assign[abs(unassigned)] = unassigned > 0
                    trail.append((abs(unassigned), False))
                    changed = True
        return True

    decisions = []
    while True:
        ok = propagate()
        if ok:
            free = [v for v in range(1, nv + 1) if v not in assign]
            if not free:
                return [v if assign[v] else -v for v in range(1, nv + 1)]
            v = free[0]
            assign[v] = True
            trail.append((v, True))
            decisions.append(v)
        else:
            # backtrack to last decision with value True, flip it
            while trail:
                v, dec = trail.pop()
                val_v = assign.pop(v)
                if dec and val_v is True:
                    assign[v] = False
                    trail.append((v, False))   # flipped: not a decision any more
                    break
            else:
                return None


def _z3(clauses, nv):
    with tempfile.NamedTemporaryFile('w', suffix='.cnf', delete=False) as f:
        f.write('p cnf %d %d\n' % (nv, len(clauses)))
        for c in clauses:
            f.write(' '.join(map(str, c)) + ' 0\n')
        name = f.name
    try:
        out = subprocess.run(['z3', '-T:900', '-dimacs', name], stdout=subprocess.PIPE, text=True, timeout=3600).stdout
    finally:
        os.unlink(name)
    lines = out.split('\n')
    head = lines[0].strip()
    if head in ('s UNSATISFIABLE', 'unsat'):
        return None
    if head in ('s SATISFIABLE', 'sat'):
        model = []
        for ln in lines[1:]:
            ln = ln.strip()
            if ln.startswith('v '):
                ln = ln[2:]
            for tok in ln.split():
                try:
                    k = int(tok)
                except ValueError:
                    continue
                if k != 0:
                    model.append(k)
        have = {abs(m) for m in model}
        model += [-v for v in range(1, nv + 1) if v not in have]
        model.sort(key=abs)
        return model
    raise RuntimeError('z3 -dimacs: unexpected output ' + out[:200])


class Solver:
    def __init__(self, name='cadical195', bootstrap_with=None, **kw):
        self.name = name
        self.clauses = []
        self.model = None
        if bootstrap_with is not None:
            self.append_formula(bootstrap_with)

    def __enter__(self):
        return self

    def __exit__(self, *a):
        return False

    def delete(self):
        pass

    def add_clause(self, clause):
        self.clauses.append(list(clause))

    def append_formula(self, formula):
        for c in (formula.clauses if hasattr(formula, 'clauses') else formula):
            self.clauses.append(list(c))

    def solve(self, assumptions=()):
        clauses = self.clauses + [[a] for a in assumptions]
        nv = max((abs(l) for c in clauses for l in c), default=0)
        if os.environ.get('VERIF_SHIM_TIMEOUT') == '1':
            import time
            time.sleep(3600)
        if nv <= 40 and len(clauses) <= 4000:
            m = _dpll(clauses, nv)
        else:
            m = _z3(clauses, nv)
        if m is not None and not _check(clauses, m):
            raise RuntimeError('shim solver produced a non-model')
        self.model = m
        return m is not None

    def get_model(self):
        return self.model
