"""Shared harness infrastructure: environment, model driver, evidence, findings, replays."""
import hashlib
import json
import os
import random
import subprocess
import sys
import time

HERE = os.path.dirname(os.path.abspath(__file__))
VERIF = os.path.dirname(HERE)
LEAN_DIR = os.path.join(VERIF, 'lean')
REPO = os.environ.get('CIRBO_REPO', '/repo')
DRIVER = os.path.join(LEAN_DIR, '.lake', 'build', 'bin', 'cirbo_model')

ALLOWED_AXIOMS = {'propext', 'Classical.choice', 'Quot.sound'}

_setup_done = False


def setup_cirbo():
    """Make `/repo`'s working tree importable, with shims for the absent third-party parts."""
    global _setup_done
    if _setup_done:
        return
    if REPO not in sys.path:
        sys.path.insert(0, REPO)
    shim_dir = os.path.join(HERE, 'shims')
    try:
        import pysat  # noqa: F401
    except Exception:
        if shim_dir not in sys.path:
            sys.path.append(shim_dir)
    os.environ.setdefault('CIRBO_VERIF', '1')
    _setup_done = True
    _install_cycle_guard()


class HarnessCyclicCircuit(Exception):
    """raised by the harness (not by cirbo) when an evaluation entry point is called on a cyclic netlist"""


def _install_cycle_guard():
    """cirbo's lazy evaluator does not terminate on a cyclic netlist.  A changed tree may hand the harness such a
    circuit as a *result*; a check must then report it, not hang.  The outermost call of an evaluation entry point
    first runs the harness's own cycle detection on the object (in this process only; results on acyclic circuits
    are untouched)."""
    try:
        from cirbo.core.circuit import Circuit
    except Exception:  # noqa: BLE001
        return
    depth = [0]

    def cyclic(c, roots):
        ops = {l: g.operands for l, g in c._gates.items()}
        colour = {}
        for root in roots:
            if root in colour or root not in ops:
                continue
            stack = [(root, iter(ops[root]))]
            colour[root] = 1
            while stack:
                node, it = stack[-1]
                for o in it:
                    if o not in ops:
                        continue
                    if colour.get(o) == 1:
                        return True
                    if o not in colour:
                        colour[o] = 1
                        stack.append((o, iter(ops[o])))
                        break
                else:
                    colour[node] = 2
                    stack.pop()
        return False

    def guard(fn):
        def wrapped(self, *a, **k):
            if depth[0] == 0:
                # only a cycle the lazy evaluator would walk into: behind the outputs (or the gates asked for)
                roots = list(self._outputs)
                extra = k.get('outputs')
                if extra is None and fn.__name__ == 'evaluate_circuit' and len(a) >= 2:
                    extra = a[1]
                if extra:
                    roots += [x for x in extra if isinstance(x, str)]
                if cyclic(self, roots):
                    raise HarnessCyclicCircuit('evaluation of a circuit with a cycle behind the evaluated gates')
            depth[0] += 1
            try:
                return fn(self, *a, **k)
            finally:
                depth[0] -= 1
        wrapped.__name__ = getattr(fn, '__name__', 'wrapped')
        wrapped.__doc__ = fn.__doc__
        return wrapped
    for name in ('evaluate_circuit', 'evaluate_circuit_outputs', 'evaluate', 'evaluate_at', 'get_truth_table'):
        if hasattr(Circuit, name):
            setattr(Circuit, name, guard(getattr(Circuit, name)))


def seed_from_env(default=0):
    try:
        return int(os.environ.get('VERIF_SEED', default))
    except ValueError:
        return default


def tier_from_env(default='quick'):
    t = os.environ.get('VERIF_TIER', default)
    return t if t in ('quick', 'thorough') else default


# --------------------------------------------------------------------------------------
# model driver

class Driver:
    """Line protocol to the compiled Lean model (`cirbo_model`): one JSON request per line,
    one JSON response per line (binary pipes, own line buffering, per-answer timeout)."""

    def __init__(self):
        if not os.path.exists(DRIVER):
            raise RuntimeError('model driver not built: ' + DRIVER)
        self.p = subprocess.Popen([DRIVER], stdin=subprocess.PIPE, stdout=subprocess.PIPE, bufsize=0)
        self.buf = b''

    def _readline(self, timeout):
        import select
        fd = self.p.stdout.fileno()
        while b'\n' not in self.buf:
            rl, _, _ = select.select([fd], [], [], timeout)
            if not rl:
                return None
            chunk = os.read(fd, 1 << 16)
            if not chunk:
                return b''
            self.buf += chunk
        line, self.buf = self.buf.split(b'\n', 1)
        return line + b'\n'

    def ask_many(self, reqs, timeout=600):
        """Send all requests (from a writer thread, so a full pipe cannot deadlock), read one
        response line per request; a model that does not answer within `timeout` s is an
        infrastructure failure."""
        import threading
        data = [(json.dumps(r, separators=(',', ':')) + '\n').encode() for r in reqs]

        def writer():
            try:
                for i in range(0, len(data), 64):
                    self.p.stdin.write(b''.join(data[i:i + 64]))
            except Exception:
                pass
        t = threading.Thread(target=writer, daemon=True)
        t.start()
        out = []
        for _ in reqs:
            line = self._readline(timeout)
            if line is None:
                self.p.kill()
                raise RuntimeError('model driver did not answer request #%d within %ds: %s'
                                   % (len(out), timeout, data[len(out)][:300]))
            if not line:
                raise RuntimeError('model driver died; stderr may tell why')
            out.append(json.loads(line))
        t.join()
        return out

    def ask(self, req):
        return self.ask_many([req])[0]

    def close(self):
        try:
            self.p.stdin.close()
            self.p.wait(timeout=10)
        except Exception:
            self.p.kill()


# --------------------------------------------------------------------------------------
# circuits <-> JSON (storage order kept)

def circ_to_json(c):
    """All five fields of a Python Circuit, in storage order."""
    return {
        'gates': [[g.label, g.gate_type.name, list(g.operands)] for g in c._gates.values()],
        'inputs': list(c._inputs),
        'outputs': list(c._outputs),
        'users': [[k, list(v)] for k, v in c._gate_to_users.items()],
        'blocks': [[b.name, list(b.inputs), list(b.gates), list(b.outputs)]
                   for b in c._blocks.values()],
    }


def circ_from_json(j, raw=True):
    """Build a Python Circuit with exactly these fields (bypassing all checks)."""
    from cirbo.core.circuit import Circuit, gate
    from cirbo.core.circuit.circuit import Block
    c = Circuit()
    for l, t, ops in j['gates']:
        c._gates[l] = gate.Gate(l, getattr(gate, t), tuple(ops))
    c._inputs = list(j['inputs'])
    c._outputs = list(j['outputs'])
    c._gate_to_users = {k: list(v) for k, v in j.get('users', [])}
    for b in j.get('blocks', []):
        c._blocks[b[0]] = Block(b[0], c, list(b[1]), list(b[2]), list(b[3]))
    return c


def with_users(j):
    """Fill in the users index (as `_add_user` would, gate by gate in storage order)."""
    users = {}
    for l, t, ops in j['gates']:
        for o in ops:
            users.setdefault(o, []).append(l)
    j = dict(j)
    j['users'] = [[k, v] for k, v in users.items()]
    j.setdefault('blocks', [])
    return j


def v3s(x):
    """Canonical text of a gate state."""
    if x is True:
        return 'T'
    if x is False:
        return 'F'
    n = type(x).__name__
    if n == '_Undefined':
        return 'U'
    if n == '_DontCare':
        return '*'
    return 'BAD:' + repr(x)


def v3p(s):
    from cirbo.core.circuit.operators import Undefined
    return {'T': True, 'F': False, 'U': Undefined}[s]


def err_name(e):
    """Canonical error class: cirbo's own exception class name, or `Py:<builtin>`."""
    mod = type(e).__module__ or ''
    if mod.startswith('cirbo'):
        return type(e).__name__
    return 'Py:' + type(e).__name__


# --------------------------------------------------------------------------------------
# Lean build + audit

def run(cmd, cwd=None, timeout=3600, env=None):
    p = subprocess.run(cmd, cwd=cwd, stdout=subprocess.PIPE, stderr=subprocess.STDOUT, text=True,
                       timeout=timeout, env=env)
    return p.returncode, p.stdout


def regenerate_tables():
    import fcntl
    lock = open(os.path.join(VERIF, '.build.lock'), 'w')
    fcntl.flock(lock, fcntl.LOCK_EX)
    try:
        rc, out = run(['/venv/bin/python', os.path.join(HERE, 'extract_tables.py')],
                      env=dict(os.environ, PYTHONHASHSEED='0'))
    finally:
        fcntl.flock(lock, fcntl.LOCK_UN)
    return rc, out


def lake_build(targets):
    import fcntl
    lock = open(os.path.join(VERIF, '.build.lock'), 'w')
    fcntl.flock(lock, fcntl.LOCK_EX)
    try:
        rc, out = run(['lake', 'build'] + list(targets), cwd=LEAN_DIR, timeout=7200)
    finally:
        fcntl.flock(lock, fcntl.LOCK_UN)
    return rc, out


def strip_comments(src):
    """Remove Lean comments (nested block comments and line comments) and string literals."""
    out = []
    i, n, depth = 0, len(src), 0
    while i < n:
        if src.startswith('/-', i):
            depth += 1
            i += 2
        elif depth and src.startswith('-/', i):
            depth -= 1
            i += 2
        elif depth:
            i += 1
        elif src.startswith('--', i):
            while i < n and src[i] != '\n':
                i += 1
        elif src[i] == '"':
            i += 1
            while i < n and src[i] != '"':
                i += 2 if src[i] == '\\' else 1
            i += 1
            out.append('""')
        else:
            out.append(src[i])
            i += 1
    return ''.join(out)


FORBIDDEN = ['sorry', 'admit', 'native_decide', 'bv_decide', 'implemented_by', 'unsafe ',
             'maxHeartbeats 0', '@[extern', 'ofReduceBool']


def audit_sources():
    """grep the Lean sources (comments stripped) for anything that would weaken a proof."""
    import re
    hits = []
    for root, _, files in os.walk(os.path.join(LEAN_DIR, 'Cirbo')):
        for f in files:
            if not f.endswith('.lean'):
                continue
            p = os.path.join(root, f)
            with open(p) as fh:
                s = strip_comments(fh.read())
            for w in FORBIDDEN:
                if w in s:
                    hits.append(f'{os.path.relpath(p, LEAN_DIR)}: {w}')
            if re.search(r'^\s*axiom\s', s, re.M):
                hits.append(f'{os.path.relpath(p, LEAN_DIR)}: axiom')
    return hits


def props_axioms(prop_id):
    """Re-elaborate Cirbo/Props/<ID>.lean and parse its `#print axioms` output.
    Returns (ok, {theorem: [axioms]}, raw_output)."""
    import re
    path = os.path.join('Cirbo', 'Props', prop_id + '.lean')
    rc, out = run(['lake', 'env', 'lean', path], cwd=LEAN_DIR, timeout=3600)
    res = {}
    for m in re.finditer(r"'([^']+)' depends on axioms: \[([^\]]*)\]", out):
        res[m.group(1)] = [a.strip() for a in m.group(2).replace('\n', ' ').split(',') if a.strip()]
    for m in re.finditer(r"'([^']+)' does not depend on any axioms", out):
        res[m.group(1)] = []
    return rc == 0, res, out


def import_closure(prop_id):
    """the Cirbo.* modules the Props file of a property depends on (itself first)"""
    import re
    seen, todo = [], ['Cirbo.Props.' + prop_id]
    while todo:
        m = todo.pop()
        if m in seen:
            continue
        seen.append(m)
        path = os.path.join(LEAN_DIR, *m.split('.')) + '.lean'
        try:
            with open(path) as f:
                src = f.read()
        except OSError:
            continue
        for imp in re.findall(r'^import (Cirbo\.[A-Za-z0-9_.]+)', src, flags=re.M):
            todo.append(imp)
    return seen


def leanchecker(prop_id):
    """independent re-check (the toolchain's `leanchecker`) of the compiled Props module of a property and of
    every Cirbo module it imports.  Returns (ok, number_of_modules, output)."""
    mods = import_closure(prop_id)
    rc, out = run(['lake', 'env', 'leanchecker'] + mods, cwd=LEAN_DIR, timeout=7200)
    return rc == 0, len(mods), out


# --------------------------------------------------------------------------------------
# findings / replays / evidence

def load_known_findings():
    p = os.path.join(VERIF, 'known_findings.json')
    if not os.path.exists(p):
        return []
    with open(p) as f:
        return json.load(f).get('findings', [])


def write_replay(prop_id, payload):
    os.makedirs(os.path.join(VERIF, 'replays'), exist_ok=True)
    blob = json.dumps(payload, sort_keys=True, default=str)
    h = hashlib.sha1(blob.encode()).hexdigest()[:12]
    path = os.path.join('replays', f'{prop_id}-{h}.json')
    with open(os.path.join(VERIF, path), 'w') as f:
        json.dump(payload, f, indent=1, sort_keys=True, default=str)
    return path


EVIDENCE_MAX_BYTES = 400_000


def _clip(o, max_str, max_items):
    """Copy of a JSON-like value with long strings and long lists/dicts cut (the cut is stated in place)."""
    if isinstance(o, str):
        return o if len(o) <= max_str else o[:max_str] + '...(+%d chars, see the replay file)' % (len(o) - max_str)
    if isinstance(o, (list, tuple)):
        out = [_clip(x, max_str, max_items) for x in o[:max_items]]
        if len(o) > max_items:
            out.append('...(+%d items)' % (len(o) - max_items))
        return out
    if isinstance(o, dict):
        ks = list(o)
        out = {k: _clip(o[k], max_str, max_items) for k in ks[:max_items]}
        if len(ks) > max_items:
            out['...'] = '(+%d keys)' % (len(ks) - max_items)
        return out
    return o


def bounded_evidence(ev):
    """The evidence record is a summary: a mismatch on a large input (a 3 MB request once) belongs in the replay
    file.  The free-form parts of coverage are clipped, ever harder, until the whole record is small; counts, theorem
    lists and the histogram are never touched."""
    size = lambda e: len(json.dumps(e, indent=1, default=str))
    if size(ev) <= EVIDENCE_MAX_BYTES:
        return ev
    cov = dict(ev['coverage'])
    free = [k for k in ('broken', 'samples', 'notes', 'counterexample_witnesses') if k in cov]
    for max_str, max_items in ((4000, 40), (1000, 20), (300, 10), (120, 6), (60, 3)):
        for k in free:
            cov[k] = _clip(ev['coverage'][k], max_str, max_items)
        cov['clipped'] = 'free-form entries cut to %d chars / %d items to keep this record small' % (max_str, max_items)
        out = dict(ev, coverage=cov)
        if size(out) <= EVIDENCE_MAX_BYTES:
            return out
    return out


def write_evidence(prop_id, tier, seed, coverage, wall_s, violations, assumptions):
    os.makedirs(os.path.join(VERIF, 'evidence'), exist_ok=True)
    ev = {
        'property_id': prop_id,
        'tier': tier,
        'seed': int(seed),
        'level': 'proof',
        'coverage': coverage,
        'assumptions': assumptions,
        'wall_s': round(wall_s, 2),
        'violations': int(violations),
    }
    path = os.path.join(VERIF, 'evidence', prop_id + '.json')
    tmp = path + '.tmp%d' % os.getpid()
    ev = bounded_evidence(ev)
    with open(tmp, 'w') as f:
        json.dump(ev, f, indent=1, default=str)
    os.replace(tmp, path)


class Rng(random.Random):
    """All random choices of a run derive from VERIF_SEED through this."""

    def __init__(self, seed, stream=''):
        super().__init__(int(hashlib.sha256(f'{seed}/{stream}'.encode()).hexdigest()[:16], 16))


class Stopwatch:
    def __init__(self):
        self.t0 = time.time()

    def s(self):
        return time.time() - self.t0


def build_via_api(j):
    """Build the circuit through cirbo's public constructors (so the users index, input list and
    blocks are whatever the code maintains), then impose the requested storage order."""
    from cirbo.core.circuit import Circuit, gate
    import gen
    c = Circuit()
    byl = {g[0]: g for g in j['gates']}
    for l in gen.topo_order(j):
        _, t, ops = byl[l]
        c.emplace_gate(l, getattr(gate, t), tuple(ops))
    # storage order of the gate map as requested (dict order is observable by printer/codec/...)
    c._gates = {g[0]: c._gates[g[0]] for g in j['gates']}
    c.set_inputs(list(j['inputs']))
    c.set_outputs(list(j['outputs']))
    for b in j.get('blocks', []):
        c.make_block(b[0], list(b[2]), list(b[3]), list(b[1]))
    return c


def realize(j):
    """JSON of the circuit as the code itself builds it (fields read back after construction)."""
    return circ_to_json(build_via_api(j))
